"""cyexec - a "Cython subset -> Python" executor: the SOURCE-LEVEL READING of the small hand-written .pyx/.pxi files.

The compiled extension modules of the package cannot be rebuilt (no Cython), so an edit of a hand-written Cython source is
invisible to every check that runs the binaries.  `load(path)` executes the source TEXT itself:

    ns = cyexec.load('/repo/compmech/integrate/integrate.pyx')
    ns['trapz2d_points'](0., 1., 3, 0., 1., 4)

Every `def`, `cdef` and `cpdef` function of the file (after textual expansion of `include '...'` lines) becomes an ordinary
Python function that works on numpy arrays.  The result can be compared with the binary on every run.

Pipeline
  1. include expansion (text, an origin table keeps (file, line) of every expanded line);
  2. tokenize-based pre-pass over LOGICAL lines (Python's tokenizer lexes Cython text): declarations, casts, `&`, `sizeof`,
     headers, cimports, extern blocks, structs, ctypedefs are rewritten / dropped; every logical line is emitted on its own line
     number, so the Python AST keeps the source positions;
  3. `ast.parse` of the result - anything that is still not Python raises Unsupported (file, line);
  4. an `ast.NodeTransformer` with a small C type inference (declared int / double / pointer / memoryview / object) gives
     `/ // % **`, assignments to C variables, pointer expressions, memoryview attribute access and `prange` the C meaning;
  5. `exec`.

Semantics kept
  * `#cython: cdivision=True`: int / int, int // int -> C truncating division; int % int -> C remainder; double / 0 -> inf / nan;
    double % double -> fmod.  A division whose operand type cannot be decided raises Unsupported (never guessed).  A file without
    the cdivision=True directive raises Unsupported as soon as it contains an int-int division / modulo.
  * assignment to a declared `int` truncates a double (C cast), to a declared `double` converts to float;
  * `double *p` parameters are numpy arrays (flat views): `&a[0]` -> a (flat view), `&a[i, 0]` -> flat view that starts at row i
    and runs to the END of the buffer (a C pointer does not know the row length), `&f` -> f, pointer + int -> shifted view;
  * `<double *>malloc(n * sizeof(double))` -> np.zeros(n), `free(p)` -> no-op, `prange(n, ...)` -> range(n), `with nogil:` ->
    plain block, `cdef extern from "math.h"` -> functions of `math` with C behaviour on domain errors;
  * a typed memoryview is a numpy array, but an attribute that a Cython memoryview does not have (`xs.min()`) raises
    AttributeError at run time exactly as the binary does;
  * functions with struct / void pointer arguments or declarations, with `&scalar` (pass by reference) or with a cast to such a
    pointer load, and raise Unsupported when CALLED (first statement: nothing of them is executed); the list is in
    ns['__cyexec__']['unsupported_functions'].
  * everything else that is not in the subset raises Unsupported at LOAD time: nothing is ever skipped silently.

Not modelled (documented limits): 32-bit wrap-around of C int, reads of uninitialised malloc memory (zeros here), undefined
behaviour of out-of-bounds / negative indices (numpy raises IndexError or wraps), C `float` (single precision: Unsupported).
"""
import ast
import io
import math
import operator
import os
import re
import tokenize

import numpy as np

__all__ = ['load', 'Unsupported', 'clear_cache']


class Unsupported(Exception):
    """statement / construct outside the recognised Cython subset (names file and line)"""

    def __init__(self, msg, file=None, line=None):
        self.msg, self.file, self.line = msg, file, line
        loc = ''
        if file is not None:
            loc = '%s:%s: ' % (file, line if line is not None else '?')
        Exception.__init__(self, loc + msg)


# ============================================================================================== types
# a C type is a tuple (kind, elem, ndim, form)
#   kind : 'int' | 'double' | 'object' | 'array' | 'funcptr' | 'void' | 'unsup'
#   elem : element kind of an array / return kind of a function pointer / description of an unsupported type
#   ndim : number of dimensions of a memoryview / buffer / C array (1 for a pointer)
#   form : 'ptr' | 'mview' | 'ndarray' | 'carray'
T_INT = ('int', None, None, None)
T_DOUBLE = ('double', None, None, None)
T_OBJECT = ('object', None, None, None)
T_VOID = ('void', None, None, None)

INT_WORDS = {'int', 'long', 'short', 'char', 'unsigned', 'signed', 'size_t', 'Py_ssize_t', 'ssize_t', 'bint',
             'int8_t', 'int16_t', 'int32_t', 'int64_t', 'uint8_t', 'uint16_t', 'uint32_t', 'uint64_t',
             'int_t', 'intp_t', 'npy_intp', 'npy_int32', 'npy_int64', 'long_t', 'uint_t'}
DOUBLE_WORDS = {'double', 'double_t', 'float64_t', 'float_t', 'npy_double', 'npy_float64'}
OBJECT_WORDS = {'object', 'list', 'dict', 'tuple', 'str', 'bytes', 'set', 'unicode', 'type', 'bytearray', 'frozenset'}
SIZEOF = {'double': 8, 'int': 4, 'long': 8, 'char': 1, 'short': 2, 'size_t': 8, 'Py_ssize_t': 8}
MVIEW_ATTRS = {'shape', 'strides', 'suboffsets', 'ndim', 'size', 'itemsize', 'nbytes', 'base', 'T', 'copy', 'copy_fortran',
               'is_c_contig', 'is_f_contig', 'memview'}
HEADER_TRAILERS = {'nogil', 'noexcept', 'except', '*', '?', '-', '+', 'with', 'gil'}
DROP_DECORATORS = {'boundscheck', 'wraparound', 'nonecheck', 'initializedcheck', 'profile', 'linetrace', 'binding',
                   'embedsignature', 'overflowcheck', 'infer_types'}
KEYWORDS_BEFORE_OPERAND = {'return', 'in', 'and', 'or', 'not', 'if', 'else', 'elif', 'while', 'is', 'yield', 'assert', 'print',
                           'del', 'raise', 'lambda', 'for', 'with', 'from', 'import', 'as'}


# ============================================================================================== C run time
_INF = float('inf')
_NAN = float('nan')


def _cy_idiv(a, b):
    """C integer division (truncation towards zero)"""
    a, b = operator.index(a), operator.index(b)
    if b == 0:
        raise ZeroDivisionError('C integer division by zero (undefined behaviour in the compiled module)')
    q = abs(a) // abs(b)
    return q if (a >= 0) == (b >= 0) else -q


def _cy_imod(a, b):
    """C integer remainder (sign of the dividend)"""
    a, b = operator.index(a), operator.index(b)
    if b == 0:
        raise ZeroDivisionError('C integer modulo by zero (undefined behaviour in the compiled module)')
    r = abs(a) % abs(b)
    return r if a >= 0 else -r


def _cy_fdiv(a, b):
    """C double division: x / 0 is inf or nan, never an exception"""
    if b == 0:
        a, b = float(a), float(b)
        if a != a or a == 0:
            return _NAN
        return math.copysign(_INF, a) * math.copysign(1.0, b)
    return a / b


def _cy_fmod(a, b):
    a, b = float(a), float(b)
    try:
        return math.fmod(a, b)
    except ValueError:
        return _NAN


def _cy_ffloordiv(a, b):
    """Cython's `//` of C doubles: floor(a / b)"""
    q = _cy_fdiv(a, b)
    if q != q or q in (_INF, -_INF):
        return q
    return float(math.floor(q))


def _cy_pow(a, b):
    """C pow(double, double)"""
    try:
        return math.pow(a, b)
    except (ValueError, OverflowError, ZeroDivisionError):
        with np.errstate(all='ignore'):
            return float(np.power(np.float64(a), np.float64(b)))


def _cy_trunc(x):
    """C cast (int)x"""
    if isinstance(x, (int, np.integer)):
        return int(x)
    return int(x)              # truncation towards zero; nan / inf raise (undefined behaviour in C)


def _cy_coerce_int(x):
    """assignment of a value of undecided static type to a C int: ints pass, floats are truncated as a C double would be"""
    if isinstance(x, (bool, np.bool_)):
        return int(x)
    if isinstance(x, (int, np.integer)):
        return int(x)
    if isinstance(x, (float, np.floating)):
        return int(x)
    return operator.index(x)


def _cy_index(x):
    """Python object -> C int (Cython refuses floats)"""
    if isinstance(x, (bool, np.bool_)):
        return int(x)
    return operator.index(x)


def _cy_float(x):
    return float(x)


class _RawMem(object):
    """result of malloc() before the cast to a typed pointer"""

    def __init__(self, nbytes):
        self.nbytes = operator.index(nbytes)

    def __getitem__(self, i):
        raise Unsupported('malloc() result used without a cast to a typed pointer')
    __setitem__ = __getitem__


def _cy_malloc(nbytes):
    return _RawMem(nbytes)


def _cy_calloc(n, size):
    return _RawMem(operator.index(n) * operator.index(size))


def _cy_free(p):
    return None


def _cy_castptr(elem, x):
    """<double *>x / <int *>x"""
    dt, sz = (np.float64, 8) if elem == 'double' else (np.intc, 4)
    if isinstance(x, _RawMem):
        if x.nbytes % sz:
            raise Unsupported('malloc(%d) is not a multiple of sizeof(%s)' % (x.nbytes, elem))
        return np.zeros(x.nbytes // sz, dtype=dt)
    if x is None:
        return None
    a = np.asarray(x)
    if a.dtype != dt and not (elem == 'int' and a.dtype.kind == 'i' and a.dtype.itemsize == 4):
        raise Unsupported('pointer cast <%s *> of an array of dtype %s' % (elem, a.dtype))
    return _cy_ptr(a, (0,) * a.ndim)


def _cy_ptr(a, idx):
    """&a[i, j, ...]: the flat view of the buffer of `a` that starts at that element and runs to the end of the buffer"""
    if a is None:
        # a typed memoryview argument that was passed None (Cython accepts it; with nonecheck=False `&x[0]` is then a pointer nobody may
        # dereference): stays None here, so that any later use raises instead of reading garbage
        return None
    if not isinstance(a, np.ndarray):
        a = np.asarray(a)
    if not isinstance(idx, tuple):
        idx = (idx,)
    if len(idx) != a.ndim:
        raise Unsupported('&a[...] with %d indices on an array of %d dimensions' % (len(idx), a.ndim))
    if not a.flags.c_contiguous:
        raise Unsupported('&a[...] of a non-contiguous array: the C code would walk the raw buffer')
    off = 0
    for k, n in zip(idx, a.shape):
        off = off * n + operator.index(k)
    if off < 0:
        raise Unsupported('&a[...] with a negative offset')
    return a.reshape(-1)[off:]


def _cy_ptr_add(p, k):
    k = operator.index(k)
    if k < 0:
        raise Unsupported('pointer - int below the start of a view cannot be represented')
    if p.ndim != 1:
        raise Unsupported('pointer arithmetic on a %d-dimensional array' % p.ndim)
    return p[k:]


def _cy_mview(x, elem, ndim, name, contig):
    """argument conversion of a typed memoryview parameter of a def function"""
    if x is None:
        return None
    a = x if isinstance(x, np.ndarray) else np.asarray(x)
    want = np.float64 if elem == 'double' else None
    if want is not None and a.dtype != want:
        raise ValueError("Buffer dtype mismatch, expected 'double' but got '%s' (argument %s)" % (a.dtype, name))
    if elem == 'int' and a.dtype.kind not in 'iu':
        raise ValueError("Buffer dtype mismatch, expected an integer type but got '%s' (argument %s)" % (a.dtype, name))
    if ndim is not None and a.ndim != ndim:
        raise ValueError('Buffer has wrong number of dimensions (expected %d, got %d) (argument %s)' % (ndim, a.ndim, name))
    if contig and not a.flags.c_contiguous:
        raise ValueError('ndarray is not C-contiguous (argument %s)' % name)
    return a


def _cy_mview_attr(name, attr):
    raise AttributeError("'_memoryviewslice' object has no attribute '%s' (typed memoryview %s)" % (attr, name))


def _cy_unsupported_rt(msg):
    raise Unsupported(msg)


def _c_math(pyf, npf=None, tofloat=False):
    def f(*a):
        try:
            r = pyf(*a)
        except (ValueError, OverflowError, ZeroDivisionError):
            if npf is None:
                return _NAN
            with np.errstate(all='ignore'):
                return float(npf(*[np.float64(v) for v in a]))
        return float(r) if tofloat else r
    f.__name__ = getattr(pyf, '__name__', 'f')
    return f


def _c_round(x):
    x = float(x)
    if x != x or x in (_INF, -_INF):
        return x
    return math.copysign(float(math.floor(abs(x) + 0.5)), x)


MATH = {
    'sin': _c_math(math.sin, np.sin), 'cos': _c_math(math.cos, np.cos), 'tan': _c_math(math.tan, np.tan),
    'asin': _c_math(math.asin, np.arcsin), 'acos': _c_math(math.acos, np.arccos), 'atan': _c_math(math.atan, np.arctan),
    'atan2': _c_math(math.atan2, np.arctan2), 'sinh': _c_math(math.sinh, np.sinh), 'cosh': _c_math(math.cosh, np.cosh),
    'tanh': _c_math(math.tanh, np.tanh), 'exp': _c_math(math.exp, np.exp), 'log': _c_math(math.log, np.log),
    'log10': _c_math(math.log10, np.log10), 'log2': _c_math(math.log2, np.log2), 'sqrt': _c_math(math.sqrt, np.sqrt),
    'pow': _cy_pow, 'fabs': _c_math(math.fabs, np.fabs), 'floor': _c_math(math.floor, np.floor, True),
    'ceil': _c_math(math.ceil, np.ceil, True), 'fmod': _cy_fmod, 'hypot': _c_math(math.hypot, np.hypot),
    'expm1': _c_math(math.expm1, np.expm1), 'log1p': _c_math(math.log1p, np.log1p), 'trunc': _c_math(math.trunc, np.trunc, True),
    'cbrt': _c_math(lambda x: math.copysign(abs(x) ** (1. / 3.), x), np.cbrt), 'round': _c_round,
    'erf': _c_math(math.erf), 'erfc': _c_math(math.erfc), 'isnan': lambda x: int(x != x),
    'isinf': lambda x: int(x in (_INF, -_INF)), 'copysign': math.copysign,
}
MATH_CONST = {'M_PI': math.pi, 'M_E': math.e, 'INFINITY': _INF, 'NAN': _NAN, 'M_PI_2': math.pi / 2, 'M_PI_4': math.pi / 4,
              'HUGE_VAL': _INF}
MATH_INT_RESULT = {'isnan', 'isinf'}

RUNTIME = dict(_cy_idiv=_cy_idiv, _cy_imod=_cy_imod, _cy_fdiv=_cy_fdiv, _cy_fmod=_cy_fmod, _cy_ffloordiv=_cy_ffloordiv,
               _cy_pow=_cy_pow, _cy_trunc=_cy_trunc, _cy_coerce_int=_cy_coerce_int, _cy_index=_cy_index, _cy_float=_cy_float,
               _cy_castptr=_cy_castptr, _cy_ptr=_cy_ptr, _cy_ptr_add=_cy_ptr_add, _cy_mview=_cy_mview,
               _cy_mview_attr=_cy_mview_attr, _cy_unsupported_rt=_cy_unsupported_rt)
LIBC_STDLIB = dict(malloc=_cy_malloc, calloc=_cy_calloc, free=_cy_free, abs=abs)


# ============================================================================================== include expansion
_INCLUDE = re.compile(r'''^(\s*)include\s+(['"])(.+?)\2\s*(#.*)?$''')


def _expand(path, dirs, lines, origin, stack):
    rp = os.path.realpath(path)
    if rp in stack:
        raise Unsupported('recursive include', path, None)
    try:
        with open(path, 'rb') as f:
            raw = f.read()
    except OSError as e:
        raise Unsupported('cannot read: %s' % e, path, None)
    try:
        text = raw.decode('utf-8')
    except UnicodeDecodeError:
        text = raw.decode('latin-1')
    text = text.replace('\r\n', '\n')
    for no, line in enumerate(text.split('\n'), 1):
        m = _INCLUDE.match(line)
        if not m:
            lines.append(line)
            origin.append((path, no))
            continue
        if m.group(1):
            raise Unsupported('indented include statement', path, no)
        for d in [os.path.dirname(path)] + dirs:
            inc = os.path.join(d, m.group(3))
            if os.path.isfile(inc):
                break
        else:
            raise Unsupported('include file %r not found' % m.group(3), path, no)
        _expand(inc, dirs, lines, origin, stack + [rp])


# ============================================================================================== logical lines
class _Line(object):
    __slots__ = ('no', 'indent', 'width', 'toks')

    def __init__(self, no, indent, toks):
        self.no, self.indent, self.toks = no, indent, toks
        self.width = len(indent.expandtabs(8))

    def strs(self):
        return [t[1] for t in self.toks]


def _logical_lines(text, where):
    out, cur = [], []
    try:
        for t in tokenize.generate_tokens(io.StringIO(text).readline):
            if t.type in (tokenize.COMMENT, tokenize.NL, tokenize.INDENT, tokenize.DEDENT):
                continue
            if t.type == tokenize.ENDMARKER:
                break
            if t.type == tokenize.NEWLINE:
                if cur:
                    first = cur[0]
                    out.append(_Line(first.start[0], first.line[:first.start[1]], [(x.type, x.string) for x in cur]))
                cur = []
                continue
            if t.type == tokenize.ERRORTOKEN or tokenize.tok_name.get(t.type, '').startswith('FSTRING'):
                raise Unsupported('token %r cannot be read' % t.string, *where(t.start[0]))
            cur.append(t)
    except (tokenize.TokenError, IndentationError, SyntaxError) as e:
        no = None
        if isinstance(e, SyntaxError):
            no = e.lineno
        elif len(e.args) > 1 and isinstance(e.args[1], tuple):
            no = e.args[1][0]
        raise Unsupported('the text cannot be tokenized: %s' % (e.args[0] if e.args else e), *where(no))
    if cur:
        first = cur[0]
        out.append(_Line(first.start[0], first.line[:first.start[1]], [(x.type, x.string) for x in cur]))
    return out


def _split0(toks, sep=','):
    """split a token list at depth-0 separators"""
    parts, cur, depth = [], [], 0
    for t in toks:
        s = t[1]
        if s in '([{' and t[0] == tokenize.OP:
            depth += 1
        elif s in ')]}' and t[0] == tokenize.OP:
            depth -= 1
        if depth == 0 and s == sep and t[0] == tokenize.OP:
            parts.append(cur)
            cur = []
        else:
            cur.append(t)
    parts.append(cur)
    return parts


def _find0(toks, s, start=0):
    depth = 0
    for k in range(start, len(toks)):
        t = toks[k]
        if t[0] == tokenize.OP:
            if t[1] == s and depth == 0:
                return k
            if t[1] in '([{':
                depth += 1
            elif t[1] in ')]}':
                depth -= 1
    return -1


def _match(toks, k):
    """index of the bracket that closes toks[k]"""
    depth = 0
    for j in range(k, len(toks)):
        if toks[j][0] == tokenize.OP:
            if toks[j][1] in '([{':
                depth += 1
            elif toks[j][1] in ')]}':
                depth -= 1
                if depth == 0:
                    return j
    return -1


def _N(s):
    return (tokenize.NAME, s)


def _O(s):
    return (tokenize.OP, s)


def _S(s):
    return (tokenize.STRING, repr(s))


# ============================================================================================== the module reader
class _Module(object):
    def __init__(self, path, repo, externs, module, loader):
        self.path = path
        self.repo = repo
        self.externs = dict(externs or {})
        self.loader = loader
        self.modname = module or _module_name(path, repo)
        self.package = self.modname.rsplit('.', 1)[0] if (self.modname and '.' in self.modname) else ''
        self.typedefs = {}          # name -> type tuple
        self.func_ret = {}          # function name -> return type tuple (None = not known)
        self.headers = {}           # expanded line number of a def -> dict(name, kind, params, ret)
        self.prebound = {}          # names bound before exec (externs, cimports, math)
        self.global_types = {}
        self.unsupported_functions = {}     # name -> reasons; these functions raise Unsupported when called
        self.deps = []                      # other modules read through cimport
        self.lines, self.origin = [], []
        self.cdivision = False
        self.cpow = False
        self.ns = None
        self.pysrc = None

    def files(self):
        """every source file this reading depends on (main file, include files, cimported modules), sorted"""
        out = set(f for f, _ in self.origin)
        out.add(self.path)
        for d in self.deps:
            out.update(d.files())
        return sorted(out)

    # ----------------------------------------------------------------------------------------- errors
    def where(self, no):
        if no is None or no < 1 or no > len(self.origin):
            return (self.path, no)
        return self.origin[no - 1]

    def bad(self, msg, no):
        f, l = self.where(no)
        text = ''
        if no is not None and 1 <= no <= len(self.lines):
            text = ' | ' + self.lines[no - 1].strip()
        return Unsupported(msg + text, f, l)

    # ----------------------------------------------------------------------------------------- types
    def classify(self, toks, no, allow_empty=True):
        strs = [t[1] for t in toks]
        # trailing "not None" / "or None"
        if len(strs) >= 2 and strs[-1] == 'None' and strs[-2] in ('not', 'or'):
            strs = strs[:-2]
        stars = 0
        words, bracket, k = [], None, 0
        while k < len(strs):
            s = strs[k]
            if s == '*':
                stars += 1
            elif s == '**':
                stars += 2
            elif s == '[':
                depth, j = 0, k
                while j < len(strs):
                    if strs[j] in '([{':
                        depth += 1
                    elif strs[j] in ')]}':
                        depth -= 1
                        if depth == 0:
                            break
                    j += 1
                if bracket is not None or j >= len(strs):
                    raise self.bad('type %r cannot be read' % ' '.join(strs), no)
                bracket = strs[k + 1:j]
                k = j
            elif s == '.':
                if not words or k + 1 >= len(strs):
                    raise self.bad('type %r cannot be read' % ' '.join(strs), no)
                words[-1] = words[-1] + '.' + strs[k + 1]
                k += 1
            elif re.match(r'^[A-Za-z_]\w*$', s):
                words.append(s)
            else:
                raise self.bad('type %r cannot be read' % ' '.join(strs), no)
            k += 1
        words = [w for w in words if w not in ('const', 'volatile', 'struct', 'inline', 'public', 'readonly', 'api')]
        if not words:
            if allow_empty and not stars and bracket is None:
                return T_OBJECT
            raise self.bad('type %r cannot be read' % ' '.join(strs), no)
        short = [w.rsplit('.', 1)[-1] for w in words]
        base = None
        if len(words) == 1 and words[0] in self.typedefs:
            base = self.typedefs[words[0]]
        elif all(w in INT_WORDS for w in short):
            base = T_INT
        elif 'double' in short and 'long' in short:
            raise self.bad('C long double is not modelled', no)
        elif len(short) == 1 and short[0] in DOUBLE_WORDS:
            base = T_DOUBLE
        elif len(short) == 1 and short[0] == 'float':
            raise self.bad('C float (single precision) is not modelled', no)
        elif len(short) == 1 and short[0] == 'void':
            base = T_VOID
        elif len(short) == 1 and short[0] in OBJECT_WORDS:
            base = T_OBJECT
        elif len(short) == 1 and short[0] == 'ndarray':
            base = ('ndarray', None, None, None)
        else:
            raise self.bad('unknown type %r' % ' '.join(strs), no)
        kind = base[0]
        if kind == 'ndarray':
            if stars:
                raise self.bad('type %r cannot be read' % ' '.join(strs), no)
            if bracket is None:
                return T_OBJECT
            args = ' '.join(bracket)
            first = args.split(',')[0].strip()
            et = self.classify([_N(x) for x in first.replace('.', ' . ').split()], no)
            if et[0] not in ('int', 'double'):
                raise self.bad('buffer element type %r is not modelled' % first, no)
            m = re.search(r'ndim\s*=\s*(\d+)', args)
            return ('array', et[0], int(m.group(1)) if m else 1, 'ndarray')
        if bracket is not None:
            if stars or kind not in ('int', 'double'):
                raise self.bad('memoryview type %r is not modelled' % ' '.join(strs), no)
            ndim = 1 + sum(1 for s in _depth0_commas(bracket))
            contig = '::' in ''.join(bracket).replace(' ', '') and '1' in bracket
            return ('array', kind, ndim, 'mview_c' if contig else 'mview')
        if kind == 'funcptr':
            if stars > 1:
                return ('unsup', 'pointer to function pointer %s' % ' '.join(strs), None, None)
            return base
        if kind == 'unsup':
            return ('unsup', ' '.join(strs), None, None)
        if stars == 0:
            return base
        if kind in ('int', 'double') and stars == 1:
            return ('array', kind, 1, 'ptr')
        if kind == 'array':
            return ('unsup', ' '.join(strs), None, None)
        return ('unsup', ' '.join(strs), None, None)

    # ----------------------------------------------------------------------------------------- expression rewriting
    def rewrite(self, toks, no):
        """casts <T>x, address-of &x, sizeof(T), NULL -> Python calls"""
        out, k, n = [], 0, len(toks)
        while k < n:
            t = toks[k]
            s = t[1]
            if t[0] == tokenize.NAME and s == 'sizeof' and k + 1 < n and toks[k + 1][1] == '(':
                j = _match(toks, k + 1)
                inner = [x[1] for x in toks[k + 2:j]]
                out.append((tokenize.NUMBER, str(self.sizeof(inner, no))))
                k = j + 1
                continue
            if t[0] == tokenize.NAME and s == 'NULL':
                out.append(_N('None'))
                k += 1
                continue
            if t[0] == tokenize.OP and s in ('<', '&') and _operand_position(out):
                if s == '<':
                    j = self.cast_end(toks, k)
                    if j < 0:
                        out.append(t)
                        k += 1
                        continue
                    tstr = ' '.join(x[1] for x in toks[k + 1:j])
                    end = self.primary_end(toks, j + 1, no)
                    inner = self.rewrite(toks[j + 1:end], no)
                    out += [_N('_cy_cast'), _O('('), _S(tstr), _O(',')] + inner + [_O(')')]
                    k = end
                    continue
                end = self.primary_end(toks, k + 1, no)
                inner = self.rewrite(toks[k + 1:end], no)
                out += [_N('_cy_addr_of'), _O('(')] + inner + [_O(')')]
                k = end
                continue
            out.append(t)
            k += 1
        return out

    def sizeof(self, inner, no):
        if '*' in inner or '**' in inner:
            return 8
        words = [w for w in inner if w not in ('unsigned', 'signed', 'const')]
        if len(words) == 1 and words[0] in SIZEOF:
            return SIZEOF[words[0]]
        if words == ['long', 'long']:
            return 8
        if not words and inner:
            return 4
        if len(words) == 1 and words[0] in self.typedefs and self.typedefs[words[0]][0] in ('int', 'double'):
            return 8 if self.typedefs[words[0]][0] == 'double' else 4
        raise self.bad('sizeof(%s) is not known' % ' '.join(inner), no)

    def cast_end(self, toks, k):
        """toks[k] == '<' in operand position: index of the closing '>' of a cast, -1 if this is not a cast"""
        depth = 0
        for j in range(k + 1, len(toks)):
            t = toks[j]
            if t[0] == tokenize.OP:
                if t[1] == '[':
                    depth += 1
                    continue
                if t[1] == ']':
                    depth -= 1
                    continue
                if t[1] == '>' and depth == 0:
                    return j if j > k + 1 else -1
                if t[1] in ('*', '**', '.', ':', ',', '::', '=') and (depth > 0 or t[1] in ('*', '**', '.')):
                    continue
                return -1
            if t[0] in (tokenize.NAME, tokenize.NUMBER):
                continue
            return -1
        return -1

    def primary_end(self, toks, k, no):
        """end (exclusive) of the unary expression that starts at toks[k]"""
        n = len(toks)
        if k >= n:
            raise self.bad('cast / & without an operand', no)
        t = toks[k]
        if t[0] == tokenize.OP and t[1] == '<':
            j = self.cast_end(toks, k)
            if j < 0:
                raise self.bad('cast operand cannot be read', no)
            return self.primary_end(toks, j + 1, no)
        if t[0] == tokenize.OP and t[1] in ('-', '+', '~', '&'):
            return self.primary_end(toks, k + 1, no)
        if t[0] == tokenize.OP and t[1] in '([{':
            k = _match(toks, k) + 1
            if k <= 0:
                raise self.bad('unbalanced brackets', no)
        elif t[0] in (tokenize.NAME, tokenize.NUMBER, tokenize.STRING):
            k += 1
        else:
            raise self.bad('cast / & operand cannot be read', no)
        while k < n:
            t = toks[k]
            if t[0] == tokenize.OP and t[1] == '.' and k + 1 < n and toks[k + 1][0] == tokenize.NAME:
                k += 2
            elif t[0] == tokenize.OP and t[1] in '([':
                j = _match(toks, k)
                if j < 0:
                    raise self.bad('unbalanced brackets', no)
                k = j + 1
            else:
                break
        if k < n and toks[k][1] == '**':
            raise self.bad('cast / & operand followed by ** (precedence not modelled)', no)
        return k

    # ----------------------------------------------------------------------------------------- declarations
    def declaration(self, toks, no):
        """tokens after `cdef` of a variable declaration -> token list of the replacing Python statement(s)"""
        while toks and toks[0][1] in ('public', 'readonly', 'api'):
            toks = toks[1:]
        if not toks:
            raise self.bad('empty declaration', no)
        segs = _split0(toks)
        if len(segs) > 1 and not segs[-1]:
            segs = segs[:-1]                    # Cython accepts a trailing comma: cdef double a, b,
        stmts = []
        base = None
        for idx, seg in enumerate(segs):
            if not seg:
                raise self.bad('declaration cannot be read', no)
            eq = _find0(seg, '=')
            lhs, rhs = (seg, None) if eq < 0 else (seg[:eq], seg[eq + 1:])
            dims = []
            while lhs and lhs[-1][1] == ']':
                # C array declarator  name[3] ; a memoryview bracket is followed by the name and never ends the declarator
                j = len(lhs) - 1
                depth = 0
                while j >= 0:
                    if lhs[j][1] == ']':
                        depth += 1
                    elif lhs[j][1] == '[':
                        depth -= 1
                        if depth == 0:
                            break
                    j -= 1
                if j < 1:
                    raise self.bad('declaration cannot be read', no)
                dims.insert(0, lhs[j + 1:-1])
                lhs = lhs[:j]
            if not lhs or lhs[-1][0] != tokenize.NAME:
                raise self.bad('declaration cannot be read', no)
            name = lhs[-1][1]
            lhs = lhs[:-1]
            stars = []
            while lhs and lhs[-1][1] in ('*', '**'):
                stars.insert(0, lhs[-1])
                lhs = lhs[:-1]
            if idx == 0:
                base = lhs
                if not base:
                    raise self.bad('declaration without a type', no)
            elif lhs:
                raise self.bad('declaration cannot be read', no)
            ty = self.classify(list(base) + stars, no, allow_empty=False)
            if ty[0] == 'void':
                raise self.bad('variable of type void', no)
            if dims:
                if ty[0] not in ('int', 'double') or rhs is not None:
                    raise self.bad('C array declaration is not modelled', no)
                ty = ('array', ty[0], len(dims), 'carray')
            stmts.append([_N('_cy_decl'), _O('('), _S(ty[0]), _O(','), _S(ty[1]), _O(','), _S(ty[2]), _O(','), _S(ty[3]),
                          _O(','), _S(name), _O(')')])
            if dims:
                shape = []
                for d in dims:
                    if not d:
                        raise self.bad('C array without a length', no)
                    shape += self.rewrite(d, no) + [_O(',')]
                dt = 'float64' if ty[1] == 'double' else 'intc'
                stmts.append([_N(name), _O('='), _N('_cy_np'), _O('.'), _N('zeros'), _O('('), _O('(')] + shape +
                             [_O(')'), _O(','), _N('_cy_np'), _O('.'), _N(dt), _O(')')])
            if rhs is not None:
                if not rhs:
                    raise self.bad('declaration cannot be read', no)
                stmts.append([_N(name), _O('=')] + self.rewrite(rhs, no))
        out = []
        for s in stmts:
            if out:
                out.append(_O(';'))
            out += s
        return out

    # ----------------------------------------------------------------------------------------- function headers
    def header(self, toks, no, kind):
        """toks: the logical line without the leading def / cdef / cpdef.  Returns the emitted tokens, or None for a forward
        declaration"""
        while kind != 'def' and toks and toks[0][1] in ('inline', 'public', 'api', 'static'):
            toks = toks[1:]
        p = _find0(toks, '(')
        if p < 1 or toks[p - 1][0] != tokenize.NAME:
            raise self.bad('function header cannot be read', no)
        name = toks[p - 1][1]
        q = _match(toks, p)
        if q < 0:
            raise self.bad('function header cannot be read', no)
        ret = T_OBJECT
        if kind != 'def':
            ret = self.classify(toks[:p - 1], no)
        elif p != 1:
            raise self.bad('function header cannot be read', no)
        rest = toks[q + 1:]
        colon = _find0(rest, ':')
        if kind == 'def':
            arrow = rest[:colon] if colon >= 0 else rest
            if colon < 0:
                raise self.bad('def without a colon', no)
            if arrow and arrow[0][1] != '->':
                raise self.bad('function header cannot be read', no)
            tail = rest[colon + 1:]
            keep_trailer = arrow
        else:
            trailer = rest[:colon] if colon >= 0 else rest
            for t in trailer:
                if t[1] not in HEADER_TRAILERS and t[0] != tokenize.NUMBER:
                    raise self.bad('function header modifier %r is not recognised' % t[1], no)
            if colon < 0:
                self.func_ret.setdefault(name, ret)
                return None                                   # forward declaration
            tail = rest[colon + 1:]
            keep_trailer = []
        params, emitted = [], []
        for seg in _split0(toks[p + 1:q]):
            if not seg:
                continue
            if seg[0][1] in ('*', '**') and kind == 'def':
                if len(seg) > 2:
                    raise self.bad('parameter cannot be read', no)
                emitted.append(seg)
                continue
            eq = _find0(seg, '=')
            lhs, default = (seg, None) if eq < 0 else (seg[:eq], seg[eq + 1:])
            strs = [t[1] for t in lhs]
            if len(strs) >= 3 and strs[-1] == 'None' and strs[-2] in ('not', 'or'):
                lhs = lhs[:-2]
            if not lhs or lhs[-1][0] != tokenize.NAME:
                raise self.bad('parameter cannot be read', no)
            pname = lhs[-1][1]
            ty = self.classify(lhs[:-1], no)
            if ty[0] == 'void':
                raise self.bad('parameter of type void', no)
            params.append((pname, ty))
            e = [_N(pname)]
            if default is not None:
                e += [_O('=')] + self.rewrite(default, no)
            emitted.append(e)
        out = [_N('def'), _N(name), _O('(')]
        for k, e in enumerate(emitted):
            if k:
                out.append(_O(','))
            out += e
        out += [_O(')')] + keep_trailer + [_O(':')]
        if tail:
            out += self.statement(tail, no)
        self.headers[no] = dict(name=name, kind=kind, params=params, ret=ret)
        self.func_ret[name] = ret if kind != 'def' else T_OBJECT
        return out

    # ----------------------------------------------------------------------------------------- cimport / extern
    def cimport(self, toks, no):
        strs = [t[1] for t in toks]
        if strs[0] == 'cimport':
            for seg in _split0(toks[1:]):
                root = seg[0][1] if seg else ''
                if root not in ('numpy', 'cython', 'libc', 'cpython'):
                    raise self.bad('cimport of a whole module is not modelled', no)
            return
        k = strs.index('cimport')
        spec = ''.join(strs[1:k])
        names = []
        rest = toks[k + 1:]
        if rest and rest[0][1] == '(' and rest[-1][1] == ')':
            rest = rest[1:-1]
        for seg in _split0(rest):
            s = [t[1] for t in seg]
            if not s:
                continue
            if len(s) == 1:
                names.append((s[0], s[0]))
            elif len(s) == 3 and s[1] == 'as':
                names.append((s[0], s[2]))
            else:
                raise self.bad('cimport cannot be read', no)
        level = len(spec) - len(spec.lstrip('.'))
        modspec = spec.lstrip('.')
        root = modspec.split('.')[0] if modspec else ''
        if level == 0 and root == 'libc':
            for n, a in names:
                if modspec == 'libc.stdlib' and n in LIBC_STDLIB:
                    self.prebound[a] = LIBC_STDLIB[n]
                elif modspec == 'libc.math' and n in MATH:
                    self.prebound[a] = MATH[n]
                    self.func_ret[a] = T_INT if n in MATH_INT_RESULT else T_DOUBLE
                elif modspec == 'libc.math' and n in MATH_CONST:
                    self.prebound[a] = MATH_CONST[n]
                    self.global_types[a] = T_DOUBLE
                elif modspec in ('libc.stdint', 'libc.stddef'):
                    if n not in INT_WORDS:
                        raise self.bad('cimport of %s.%s is not modelled' % (modspec, n), no)
                elif modspec == 'libc.stdio' and n == 'printf':
                    self.prebound[a] = lambda *a_: None
                else:
                    raise self.bad('cimport of %s.%s is not modelled' % (modspec, n), no)
            return
        if level == 0 and root in ('cython', 'numpy'):
            return                     # prange / parallel / type names: handled by name
        if level == 0 and root == 'cpython':
            for n, a in names:
                if n != 'bool':
                    raise self.bad('cimport of %s.%s is not modelled' % (modspec, n), no)
                self.typedefs[a] = T_OBJECT
            return
        # a module of the package: its .pyx is read through cyexec as well
        if level:
            pk = self.package.split('.') if self.package else []
            if level - 1 > len(pk) or not self.package:
                raise self.bad('relative cimport outside of a package (pass module=... to load)', no)
            dotted = pk[:len(pk) - (level - 1)] + ([x for x in modspec.split('.')] if modspec else [])
        else:
            dotted = modspec.split('.')
        target = os.path.join(self.repo, *dotted) + '.pyx'
        missing = [n for n, a in names if a not in self.externs]
        if not missing:
            for n, a in names:
                self.prebound[a] = self.externs[a]
                self.func_ret[a] = None
            return
        if not os.path.isfile(target):
            raise self.bad('cimport: %s not found (only a .pxd / binary?); supply externs={...}' % target, no)
        other = self.loader(target, None, '.'.join(dotted))
        if other not in self.deps:
            self.deps.append(other)
        for n, a in names:
            if a in self.externs:
                self.prebound[a] = self.externs[a]
                self.func_ret[a] = None
            elif n in other.ns and (n in other.func_ret or n in other.global_types):
                self.prebound[a] = other.ns[n]
                if n in other.func_ret:
                    self.func_ret[a] = other.func_ret[n]
                else:
                    self.global_types[a] = other.global_types[n]
            elif n in other.typedefs:
                self.typedefs[a] = other.typedefs[n]
            else:
                raise self.bad('cimport: %s does not define %s at the C level' % (target, n), no)

    def extern_block(self, header, block, no):
        hs = [t[1] for t in header]
        hdr = None
        for t in header:
            if t[0] == tokenize.STRING:
                hdr = ast.literal_eval(t[1])
        is_math = hdr in ('math.h', '<math.h>') or (hdr is None and '*' in hs)
        for ln in block:
            toks = ln.toks
            s = ln.strs()
            if s == ['pass']:
                continue
            if s[0] in ('ctypedef', 'cdef', 'struct', 'enum', 'union', 'cppclass'):
                body = toks[1:] if s[0] in ('ctypedef', 'cdef') else toks
                self.typedef(body, ln.no, s[0] == 'ctypedef')
                continue
            p = _find0(toks, '(')
            if p >= 1 and toks[p - 1][0] == tokenize.NAME:
                name = toks[p - 1][1]
                q = _match(toks, p)
                for t in toks[q + 1:]:
                    if t[1] not in HEADER_TRAILERS and t[0] != tokenize.NUMBER:
                        raise self.bad('extern declaration cannot be read', ln.no)
                ret = self.classify(toks[:p - 1], ln.no)
                self.func_ret[name] = ret
                if name in self.externs:
                    self.prebound[name] = self.externs[name]
                elif is_math and name in MATH:
                    self.prebound[name] = MATH[name]
                else:
                    self.prebound[name] = _extern_stub(name, hdr, self.where(ln.no))
                continue
            # variable / constant
            if toks[-1][0] == tokenize.NAME and len(toks) >= 2:
                name = toks[-1][1]
                ty = self.classify(toks[:-1], ln.no, allow_empty=False)
                if name in self.externs:
                    self.prebound[name] = self.externs[name]
                elif is_math and name in MATH_CONST:
                    self.prebound[name] = MATH_CONST[name]
                else:
                    raise self.bad('extern variable %s: supply it through externs={...}' % name, ln.no)
                self.global_types[name] = ty
                continue
            raise self.bad('extern declaration cannot be read', ln.no)

    def typedef(self, toks, no, is_ctypedef):
        """ctypedef ... / cdef struct ...  (toks without the leading keyword)"""
        s = [t[1] for t in toks]
        if s and s[-1] == ':':
            toks, s = toks[:-1], s[:-1]
        if not s:
            raise self.bad('type definition cannot be read', no)
        if s[0] in ('struct', 'union', 'packed'):
            if s[0] == 'packed':
                s = s[1:]
            if len(s) != 2:
                raise self.bad('struct definition cannot be read', no)
            self.typedefs[s[1]] = ('unsup', 'struct ' + s[1], None, None)
            return
        if s[0] in ('enum', 'cppclass', 'class', 'fused'):
            raise self.bad('%s definitions are not modelled' % s[0], no)
        if not is_ctypedef:
            raise self.bad('type definition cannot be read', no)
        p = _find0(toks, '(')
        if p >= 0:
            # function type:  ctypedef void *name(args) nogil   /   ctypedef double (*name)(double)
            if toks[p + 1][1] == '*' and toks[p + 2][0] == tokenize.NAME and toks[p + 3][1] == ')':
                name = toks[p + 2][1]
                rett = toks[:p]
            else:
                if p < 1 or toks[p - 1][0] != tokenize.NAME:
                    raise self.bad('ctypedef cannot be read', no)
                name = toks[p - 1][1]
                rett = toks[:p - 1]
            ret = self.classify(rett, no)
            self.typedefs[name] = ('funcptr', ret[0] if ret[0] in ('int', 'double', 'object') else None, None, None)
            return
        if toks[-1][0] != tokenize.NAME or len(toks) < 2:
            raise self.bad('ctypedef cannot be read', no)
        self.typedefs[toks[-1][1]] = self.classify(toks[:-1], no, allow_empty=False)

    # ----------------------------------------------------------------------------------------- statements
    def statement(self, toks, no):
        """a logical line that is not a Cython-only construct: expression rewriting + the few statement-level rewrites"""
        s = [t[1] for t in toks]
        if s[0] == 'with':
            colon = _find0(toks, ':')
            if colon > 0:
                items = _split0(toks[1:colon])
                names = [''.join(x[1] for x in it) for it in items]
                if all(nm in ('nogil', 'gil') or nm.startswith('parallel(') or nm.startswith('cython.parallel.parallel(')
                       for nm in names):
                    out = [_N('if'), _N('True'), _O(':')]
                    if toks[colon + 1:]:
                        out += self.statement(toks[colon + 1:], no)
                    return out
                if any(nm in ('nogil', 'gil') for nm in names):
                    raise self.bad('with statement mixes nogil with something else', no)
        return self.rewrite(toks, no)

    # ----------------------------------------------------------------------------------------- the pre-pass
    def prepass(self):
        dirs = []
        if self.modname:
            d = os.path.dirname(os.path.join(self.repo, *self.modname.split('.')))
            if os.path.isdir(d) and os.path.realpath(d) != os.path.realpath(os.path.dirname(self.path)):
                dirs.append(d)
        _expand(self.path, dirs, self.lines, self.origin, [])
        # compiler directives: comment lines at the top of the main file
        for line in self.lines:
            st = line.strip()
            if not st:
                continue
            if not st.startswith('#'):
                break
            m = re.match(r'^#\s*cython\s*:\s*(.*)$', st)
            if m:
                for item in m.group(1).split(','):
                    if '=' in item:
                        k, v = [x.strip() for x in item.split('=', 1)]
                        if k == 'cdivision':
                            self.cdivision = (v == 'True')
                        if k == 'cpow':
                            self.cpow = (v == 'True')
                        if k == 'language_level' and v.strip('\'"') == '2':
                            raise Unsupported('language_level=2 is not modelled', self.path, None)
        text = '\n'.join(self.lines) + '\n'
        L = _logical_lines(text, self.where)
        emitted = []                         # (line number, text)

        def emit(ln, toks):
            emitted.append((ln.no, ln.indent + ' '.join(t[1] for t in toks)))

        def block_of(i):
            j = i + 1
            while j < len(L) and L[j].width > L[i].width:
                j += 1
            return j

        i = 0
        cdef_blocks = []                     # widths of open `cdef:` blocks
        while i < len(L):
            ln = L[i]
            toks = ln.toks
            s = ln.strs()
            while cdef_blocks and ln.width <= cdef_blocks[-1]:
                cdef_blocks.pop()
            first = s[0]
            if cdef_blocks and first not in ('cdef', 'cpdef', 'ctypedef', 'pass'):
                toks = [_N('cdef')] + toks
                s = ['cdef'] + s
                first = 'cdef'
            if first in ('DEF', 'IF', 'ELIF', 'ELSE') and toks[0][0] == tokenize.NAME:
                raise self.bad('compile-time %s is not modelled' % first, ln.no)
            if first == 'include':
                raise self.bad('include statement in an unexpected place', ln.no)
            if first == 'ctypedef':
                self.typedef(toks[1:], ln.no, True)
                i = block_of(i) if s[-1] == ':' else i + 1
                continue
            if first in ('cdef', 'cpdef'):
                if len(s) == 2 and s[1] == ':':
                    cdef_blocks.append(ln.width)
                    emit(ln, [_N('if'), _N('True'), _O(':')])
                    i += 1
                    continue
                if len(s) > 2 and s[1] == 'extern':
                    j = block_of(i)
                    if s[-1] != ':':
                        raise self.bad('cdef extern without a block', ln.no)
                    self.extern_block(toks, L[i + 1:j], ln.no)
                    i = j
                    continue
                if s[1] in ('struct', 'union', 'enum', 'class', 'cppclass', 'packed', 'fused'):
                    if s[1] == 'class':
                        raise self.bad('cdef class is not modelled', ln.no)
                    self.typedef(toks[1:], ln.no, False)
                    i = block_of(i) if s[-1] == ':' else i + 1
                    continue
                p = _find0(toks, '(')
                eq = _find0(toks, '=')
                if p >= 2 and toks[p - 1][0] == tokenize.NAME and (eq < 0 or eq > p):
                    if p + 1 < len(toks) and toks[p + 1][1] == '*' and toks[p - 1][1] in INT_WORDS | DOUBLE_WORDS | {'void'}:
                        raise self.bad('function pointer declarator is not modelled (use a ctypedef)', ln.no)
                    out = self.header(toks[1:], ln.no, first)
                    if out is not None:
                        emit(ln, out)
                    i += 1
                    continue
                if first == 'cpdef':
                    raise self.bad('cpdef statement cannot be read', ln.no)
                emit(ln, self.declaration(toks[1:], ln.no))
                i += 1
                continue
            if first == 'def' or (first == 'async' and len(s) > 1 and s[1] == 'def'):
                if first == 'async':
                    raise self.bad('async def is not modelled', ln.no)
                emit(ln, self.header(toks[1:], ln.no, 'def'))
                i += 1
                continue
            if 'cimport' in s and toks[s.index('cimport')][0] == tokenize.NAME and first in ('from', 'cimport'):
                self.cimport(toks, ln.no)
                i += 1
                continue
            if first == 'import' and ''.join(s[1:]).split('.')[0] == 'cython' and ',' not in s:
                i += 1
                continue
            if first == 'from' and len(s) > 1 and s[1] == 'cython' and 'import' in s:
                names = [x for x in s[s.index('import') + 1:] if x not in (',', '(', ')')]
                if 'as' in names or any(x not in ('prange', 'parallel', 'threadid') for x in names):
                    raise self.bad('import from cython is not modelled', ln.no)
                i += 1
                continue
            if first == '@':
                d = ''.join(s[1:])
                m = re.match(r'^cython\.(\w+)\(', d)
                if m and m.group(1) in DROP_DECORATORS:
                    i += 1
                    continue
                if d.startswith('cython.'):
                    raise self.bad('decorator @%s is not modelled' % d, ln.no)
            emit(ln, self.statement(toks, ln.no))
            i += 1
        # one emitted text per line number
        out, cur = [], 0
        for no, text in emitted:
            if no - 1 < cur:
                raise self.bad('internal: overlapping logical lines', no)
            out.append('\n' * (no - 1 - cur))
            out.append(text + '\n')
            cur = no - 1 + 1 + text.count('\n')
        self.pysrc = ''.join(out)

    # ----------------------------------------------------------------------------------------- ast + exec
    def run(self):
        self.prepass()
        try:
            tree = ast.parse(self.pysrc, filename=self.path + ' (cyexec)')
        except SyntaxError as e:
            raise self.bad('statement outside the recognised subset (%s)' % e.msg, e.lineno)
        tree = _Tx(self).visit(tree)
        for sub in ast.walk(tree):
            if isinstance(getattr(sub, 'body', None), list) and not sub.body and not isinstance(sub, ast.Module):
                sub.body.append(ast.Pass())
        ast.fix_missing_locations(tree)
        ns = dict(RUNTIME)
        ns['_cy_np'] = np
        ns.update(self.prebound)
        ns['__name__'] = (self.modname or os.path.splitext(os.path.basename(self.path))[0]) + '.__cyexec__'
        ns['__package__'] = self.package or None
        ns['__file__'] = self.path
        code = compile(tree, self.path + ' (cyexec)', 'exec')
        self.final = ast.unparse(tree)
        exec(code, ns)
        ns['__cyexec__'] = dict(path=self.path, module=self.modname, python_source=self.pysrc, python_final=self.final, functions=dict(self.func_ret),
                                globals=dict(self.global_types), typedefs=dict(self.typedefs),
                                defined=sorted(h['name'] for h in self.headers.values()), origin=list(self.origin),
                                unsupported_functions=dict(self.unsupported_functions), files=self.files())
        self.ns = ns
        return ns


def _stat(path):
    try:
        st = os.stat(path)
        return (st.st_mtime_ns, st.st_size)
    except OSError:
        return None


def _depth0_commas(strs):
    depth = 0
    for s in strs:
        if s in '([{':
            depth += 1
        elif s in ')]}':
            depth -= 1
        elif s == ',' and depth == 0:
            yield s


def _operand_position(out):
    if not out:
        return True
    t = out[-1]
    if t[0] == tokenize.OP:
        return t[1] not in (')', ']', '}')
    if t[0] == tokenize.NAME:
        return t[1] in KEYWORDS_BEFORE_OPERAND
    return False


def _extern_stub(name, hdr, where):
    def stub(*a, **k):
        raise Unsupported('external C function %s (declared from %r) was not supplied: cyexec.load(path, externs={%r: f})'
                          % (name, hdr, name), where[0], where[1])
    stub.__name__ = name
    return stub


def _module_name(path, repo):
    """dotted module name of a file inside a package tree"""
    d = os.path.dirname(os.path.abspath(path))
    parts = [os.path.splitext(os.path.basename(path))[0]]
    while os.path.isfile(os.path.join(d, '__init__.py')):
        parts.insert(0, os.path.basename(d))
        nd = os.path.dirname(d)
        if nd == d:
            break
        d = nd
    return '.'.join(parts) if len(parts) > 1 else ''


# ============================================================================================== the AST pass
NUM = ('int', 'double')


def _const(v):
    return ast.Constant(value=v)


def _call(name, *args):
    return ast.Call(func=ast.Name(id=name, ctx=ast.Load()), args=list(args), keywords=[])


class _Tx(ast.NodeTransformer):
    def __init__(self, mod):
        self.m = mod
        self.genv = dict(mod.global_types)
        self.env = None            # local environment inside a function
        self.fn = None             # header dict of the current function
        self.fn_unsup = []         # reasons why the current function raises Unsupported when called

    # ----------------------------------------------------------------------------------------- helpers
    def bad(self, msg, node):
        return self.m.bad(msg, getattr(node, 'lineno', None))

    @staticmethod
    def marker(st):
        if isinstance(st, ast.Expr) and isinstance(st.value, ast.Call) and isinstance(st.value.func, ast.Name) \
                and st.value.func.id == '_cy_decl':
            a = [x.value for x in st.value.args]
            return a[4], (a[0], a[1], a[2], a[3])
        return None

    def fn_unsupported(self, msg, node):
        """a construct that cannot be given a meaning inside a function: the FUNCTION raises Unsupported when it is called (its
        first statement), nothing of it is executed; at module level this is a load-time error"""
        if self.fn is None:
            raise self.bad(msg, node)
        f, l = self.m.where(getattr(node, 'lineno', None))
        self.fn_unsup.append('%s:%s: %s' % (f, l, msg))
        return ast.copy_location(_call('_cy_unsupported_rt', _const('%s:%s: %s' % (f, l, msg))), node)

    def lookup(self, name):
        if self.env is not None and name in self.env:
            return self.env[name]
        if name in self.genv:
            return self.genv[name]
        return None

    # ----------------------------------------------------------------------------------------- type inference
    def typeof(self, n):
        """'int' | 'double' | 'object' | 'array' | 'funcptr' | None (cannot be decided)"""
        if isinstance(n, ast.Constant):
            v = n.value
            if isinstance(v, bool) or isinstance(v, int):
                return 'int'
            if isinstance(v, float):
                return 'double'
            return 'object'
        if isinstance(n, ast.Name):
            t = self.lookup(n.id)
            if t is not None:
                if t[0] == 'array' and t[3] == 'ndarray':
                    return 'object'
                return t[0] if t[0] != 'unsup' else None
            if n.id in ('True', 'False'):
                return 'int'
            return 'object'           # untyped local / Python-level global / builtin: a Python object
        if isinstance(n, ast.UnaryOp):
            t = self.typeof(n.operand)
            if isinstance(n.op, ast.Not):
                return 'int' if t in NUM else 'object'
            if isinstance(n.op, ast.Invert):
                return t if t in ('int', 'object') else None
            return t if t in ('int', 'double', 'object') else None
        if isinstance(n, ast.BinOp):
            l, r = self.typeof(n.left), self.typeof(n.right)
            if l is None or r is None:
                return None
            if 'array' in (l, r) or 'funcptr' in (l, r):
                if isinstance(n.op, (ast.Add, ast.Sub)) and l == 'array' and r == 'int':
                    return 'array'
                return None
            if 'object' in (l, r):
                return 'object'
            if isinstance(n.op, (ast.Add, ast.Sub, ast.Mult, ast.Div, ast.FloorDiv, ast.Mod)):
                return 'int' if (l, r) == ('int', 'int') else 'double'
            if isinstance(n.op, ast.Pow):
                if 'double' in (l, r):
                    return 'double'
                if isinstance(n.right, ast.Constant) and isinstance(n.right.value, int) and n.right.value >= 0:
                    return 'int'
                return None if self.m.cpow else 'double'      # Cython 3, cpow=False: pow((double)a, (double)b)
            if isinstance(n.op, (ast.LShift, ast.RShift, ast.BitAnd, ast.BitOr, ast.BitXor)):
                return 'int' if (l, r) == ('int', 'int') else None
            return None
        if isinstance(n, ast.Compare):
            ts = [self.typeof(x) for x in [n.left] + n.comparators]
            return 'int' if all(t in NUM for t in ts) else 'object'
        if isinstance(n, ast.BoolOp):
            ts = set(self.typeof(x) for x in n.values)
            return ts.pop() if len(ts) == 1 else (None if None in ts else ('double' if ts == {'int', 'double'} else 'object'))
        if isinstance(n, ast.IfExp):
            a, b = self.typeof(n.body), self.typeof(n.orelse)
            if a == b:
                return a
            if {a, b} == {'int', 'double'}:
                return 'double'
            return None if None in (a, b) else 'object'
        if isinstance(n, ast.Call):
            f = n.func
            if isinstance(f, ast.Name):
                nm = f.id
                if nm == '_cy_cast':
                    ty = self.cast_type(n)
                    return ty[0] if ty[0] in ('int', 'double', 'object', 'array', 'funcptr') else None
                if nm == '_cy_addr_of':
                    a = n.args[0]
                    return 'array' if isinstance(a, ast.Subscript) else 'funcptr'
                loc = self.lookup(nm)
                if loc is not None:
                    if loc[0] == 'funcptr':
                        return loc[1]
                    if loc[0] == 'object':
                        return 'object'
                    return None
                if nm in self.m.func_ret:
                    r = self.m.func_ret[nm]
                    if r is None:
                        return None
                    return r[0] if r[0] in ('int', 'double', 'object') else None
                if nm == 'len':
                    return 'int'
                if nm in ('abs', 'min', 'max') and n.args and not n.keywords:
                    ts = [self.typeof(a) for a in n.args]
                    if all(t == 'int' for t in ts):
                        return 'int'
                    if all(t in NUM for t in ts):
                        return 'double'
                    return None if None in ts else 'object'
                return 'object'
            return 'object'               # method / attribute call: a Python call
        if isinstance(n, ast.Subscript):
            b = n.value
            if isinstance(b, ast.Name):
                t = self.lookup(b.id)
                if t is not None and t[0] == 'array' and t[3] != 'ndarray':
                    idx = n.slice.elts if isinstance(n.slice, ast.Tuple) else [n.slice]
                    if any(isinstance(x, (ast.Slice, ast.Starred)) or (isinstance(x, ast.Constant) and x.value is Ellipsis)
                           for x in idx):
                        return 'array'
                    if len(idx) == (t[2] or 1):
                        return t[1]
                    return 'array' if len(idx) < (t[2] or 1) else None
                if t is not None and t[0] == 'array':
                    # buffer-typed ndarray: C element access only with C int indices, else a Python __getitem__
                    idx = n.slice.elts if isinstance(n.slice, ast.Tuple) else [n.slice]
                    if len(idx) == (t[2] or 1) and all(not isinstance(x, (ast.Slice, ast.Starred)) and self.typeof(x) == 'int'
                                                       for x in idx):
                        return t[1]
                    return 'object'
                if t is not None and t[0] in ('int', 'double', 'funcptr'):
                    return None
                return 'object'
            if isinstance(b, ast.Attribute) and isinstance(b.value, ast.Name) and b.attr in ('shape', 'strides'):
                t = self.lookup(b.value.id)
                if t is not None and t[0] == 'array' and t[3] in ('mview', 'mview_c'):
                    return 'int'
            return 'object'
        if isinstance(n, ast.Attribute):
            if isinstance(n.value, ast.Name):
                t = self.lookup(n.value.id)
                if t is not None and t[0] == 'array' and t[3] in ('mview', 'mview_c'):
                    return 'int' if n.attr in ('size', 'ndim', 'itemsize', 'nbytes') else None
                if t is not None and t[0] in NUM:
                    return None
            return 'object'
        if isinstance(n, (ast.Tuple, ast.List, ast.Dict, ast.Set, ast.ListComp, ast.GeneratorExp, ast.DictComp, ast.SetComp,
                          ast.JoinedStr, ast.Lambda)):
            return 'object'
        if isinstance(n, ast.NamedExpr):
            return self.typeof(n.value)
        return None

    def cast_type(self, call):
        tstr = call.args[0].value
        toks = [(tokenize.NAME if re.match(r'^[A-Za-z_]\w*$', s) else tokenize.OP, s) for s in tstr.split()]
        return self.m.classify(toks, call.lineno, allow_empty=False)

    # ----------------------------------------------------------------------------------------- module / functions
    def visit_Module(self, node):
        for st in node.body:
            mk = self.marker(st)
            if mk:
                self.genv[mk[0]] = mk[1]
        self.m.global_types.update(self.genv)
        self.generic_visit(node)
        return node

    def visit_FunctionDef(self, node):
        h = self.m.headers.get(node.lineno)
        if h is None:
            raise self.bad('internal: def without header information', node)
        outer = (self.env, self.fn, self.fn_unsup)
        self.fn_unsup = []
        env = {}
        for pname, ty in h['params']:
            env[pname] = ty
        for a in node.args.args + node.args.kwonlyargs + [x for x in (node.args.vararg, node.args.kwarg) if x]:
            env.setdefault(a.arg, T_OBJECT)
        unsup = [(p, ty[1]) for p, ty in h['params'] if ty[0] == 'unsup']
        assigned = set()
        for sub in ast.walk(node):
            if sub is node:
                continue
            mk = self.marker(sub) if isinstance(sub, ast.Expr) else None
            if mk:
                if mk[0] in env and env[mk[0]] != mk[1] and mk[0] in [p for p, _ in h['params']]:
                    raise self.bad('parameter %s is declared again' % mk[0], sub)
                env[mk[0]] = mk[1]
                if mk[1][0] == 'unsup':
                    unsup.append((mk[0], mk[1][1]))
            elif isinstance(sub, ast.Name) and isinstance(sub.ctx, (ast.Store, ast.Del)):
                assigned.add(sub.id)
        for sub in ast.walk(node):
            if isinstance(sub, (ast.Global, ast.Nonlocal)):
                for g in sub.names:
                    assigned.discard(g)
        for nm in assigned:
            env.setdefault(nm, T_OBJECT)
        self.env, self.fn = env, h
        node.args = self.visit(node.args)
        body = []
        for st in node.body:
            r = self.visit(st)
            if isinstance(r, list):
                body += r
            elif r is not None:
                body.append(r)
        pro = []
        reasons = list(self.fn_unsup)
        if unsup:
            reasons.insert(0, '%s:%s: function %s uses %s, which is not modelled'
                           % (self.m.where(node.lineno) + (h['name'], ', '.join('%s (%s)' % (p, d) for p, d in unsup))))
        if reasons:
            pro.append(ast.Expr(value=_call('_cy_unsupported_rt', _const(
                reasons[0] + ('' if len(reasons) == 1 else ' (and %d more in function %s)' % (len(reasons) - 1, h['name']))))))
            self.m.unsupported_functions[h['name']] = reasons
        for pname, ty in h['params']:
            conv = None
            if ty[0] == 'int':
                conv = _call('_cy_index' if h['kind'] == 'def' else '_cy_coerce_int', ast.Name(id=pname, ctx=ast.Load()))
            elif ty[0] == 'double':
                conv = _call('_cy_float', ast.Name(id=pname, ctx=ast.Load()))
            elif ty[0] == 'array' and ty[3] in ('mview', 'mview_c') and h['kind'] in ('def', 'cpdef'):
                conv = _call('_cy_mview', ast.Name(id=pname, ctx=ast.Load()), _const(ty[1]), _const(ty[2]), _const(pname),
                             _const(ty[3] == 'mview_c'))
            if conv is not None:
                pro.append(ast.Assign(targets=[ast.Name(id=pname, ctx=ast.Store())], value=conv))
        # keep a docstring first
        k = 1 if (body and isinstance(body[0], ast.Expr) and isinstance(body[0].value, ast.Constant)
                  and isinstance(body[0].value.value, str)) else 0
        for p in pro:
            ast.copy_location(p, node)
        node.body = body[:k] + pro + body[k:]
        node.decorator_list = [self.visit(d) for d in node.decorator_list]
        self.env, self.fn, self.fn_unsup = outer
        return node

    def visit_Lambda(self, node):
        outer = self.env
        env = dict(self.env or {})
        a = node.args
        for x in a.posonlyargs + a.args + a.kwonlyargs + [y for y in (a.vararg, a.kwarg) if y]:
            env[x.arg] = T_OBJECT
        self.env = env
        self.generic_visit(node)
        self.env = outer
        return node

    def comprehension(self, node):
        for g in node.generators:
            for sub in ast.walk(g.target):
                if isinstance(sub, ast.Name):
                    t = self.lookup(sub.id)
                    if t is not None and t[0] != 'object':
                        raise self.bad('comprehension variable %s is also a declared C variable (scoping differs)' % sub.id, node)
        self.generic_visit(node)
        return node
    visit_ListComp = visit_SetComp = visit_DictComp = visit_GeneratorExp = comprehension

    def visit_Expr(self, node):
        if self.marker(node):
            return None                       # a declaration: dropped (empty blocks are refilled with `pass` afterwards)
        self.generic_visit(node)
        return node

    # ----------------------------------------------------------------------------------------- expressions
    def need_cdiv(self, node):
        if not self.m.cdivision:
            raise self.bad('int-int division / modulo in a file without "#cython: cdivision=True": the meaning depends on the '
                           'language level', node)

    def arith(self, op, left, right, lt, rt, node):
        """left / right are already transformed; lt / rt the C types of the originals"""
        if isinstance(op, (ast.Div, ast.FloorDiv, ast.Mod)):
            what = {ast.Div: '/', ast.FloorDiv: '//', ast.Mod: '%'}[type(op)]
            if lt is None or rt is None or lt in ('array', 'funcptr') or rt in ('array', 'funcptr'):
                raise self.bad('cannot decide the C type of the %s operand of %r (int or double?)'
                               % ('left' if (lt is None or lt in ('array', 'funcptr')) else 'right', what), node)
            if lt == 'object' or rt == 'object':
                return None                                    # Python semantics
            if (lt, rt) == ('int', 'int'):
                self.need_cdiv(node)
                return _call('_cy_imod' if isinstance(op, ast.Mod) else '_cy_idiv', left, right)
            fn = {ast.Div: '_cy_fdiv', ast.FloorDiv: '_cy_ffloordiv', ast.Mod: '_cy_fmod'}[type(op)]
            return _call(fn, left, right)
        if isinstance(op, ast.Pow):
            if lt == 'object' or rt == 'object':
                return None
            if lt in NUM and rt in NUM and 'double' in (lt, rt):
                return _call('_cy_pow', left, right)
            if (lt, rt) == ('int', 'int') and isinstance(right, ast.Constant) and isinstance(right.value, int) \
                    and right.value >= 0:
                return None
            if (lt, rt) == ('int', 'int') and not self.m.cpow:
                # C int ** C int with an exponent that is not a non-negative constant: Cython 3 (cpow=False, the default of
                # language level 3 that setup.py sets) evaluates pow((double)a, (double)b) - a C double
                return _call('_cy_pow', left, right)
            raise self.bad('** of C operands that cannot be typed (or cpow=True with a variable exponent)', node)
        if 'array' in (lt, rt) or 'funcptr' in (lt, rt):
            raise self.bad('arithmetic on a pointer / memoryview is not modelled', node)
        return None

    def visit_BinOp(self, node):
        lt, rt = self.typeof(node.left), self.typeof(node.right)
        # pointer + int
        if isinstance(node.op, (ast.Add, ast.Sub)) and lt == 'array' and isinstance(node.left, ast.Name):
            t = self.lookup(node.left.id)
            if t is not None and t[3] == 'ptr' and rt == 'int' and isinstance(node.op, ast.Add):
                return ast.copy_location(_call('_cy_ptr_add', self.visit(node.left), self.visit(node.right)), node)
            raise self.bad('arithmetic on a pointer / memoryview is not modelled', node)
        left, right = self.visit(node.left), self.visit(node.right)
        r = self.arith(node.op, left, right, lt, rt, node)
        if r is None:
            node.left, node.right = left, right
            return node
        return ast.copy_location(r, node)

    def visit_Call(self, node):
        f = node.func
        if isinstance(f, ast.Name) and f.id == '_cy_cast':
            ty = self.cast_type(node)
            arg = self.visit(node.args[1])
            if ty[0] == 'double':
                r = _call('_cy_float', arg)
            elif ty[0] == 'int':
                r = _call('_cy_trunc', arg)
            elif ty[0] == 'object':
                r = arg
            elif ty[0] == 'array' and ty[3] == 'ptr':
                r = _call('_cy_castptr', _const(ty[1]), arg)
            elif ty[0] == 'funcptr':
                r = arg
            else:
                return self.fn_unsupported('cast <%s> is not modelled' % node.args[0].value, node)
            return ast.copy_location(r, node)
        if isinstance(f, ast.Name) and f.id == '_cy_addr_of':
            a = node.args[0]
            if isinstance(a, ast.Subscript):
                idx = a.slice
                elts = idx.elts if isinstance(idx, ast.Tuple) else [idx]
                if any(isinstance(x, (ast.Slice, ast.Starred)) for x in elts):
                    raise self.bad('& of a slice', node)
                r = _call('_cy_ptr', self.visit(a.value), ast.Tuple(elts=[self.visit(x) for x in elts], ctx=ast.Load()))
                return ast.copy_location(r, node)
            if isinstance(a, ast.Name):
                t = self.lookup(a.id)
                if t is not None and t[0] != 'funcptr':
                    return self.fn_unsupported('&%s: the address of a C variable (pass-by-reference) is not modelled' % a.id, node)
                if t is None and a.id not in self.m.func_ret:
                    raise self.bad('&%s: not a known C function' % a.id, node)
                return ast.copy_location(ast.Name(id=a.id, ctx=ast.Load()), node)
            return self.fn_unsupported('& of this expression is not modelled', node)
        if (isinstance(f, ast.Name) and f.id == 'prange') or (isinstance(f, ast.Attribute) and f.attr == 'prange'):
            if not node.args or len(node.args) > 3:
                raise self.bad('prange call cannot be read', node)
            r = _call('range', *[self.visit(a) for a in node.args])
            return ast.copy_location(r, node)
        self.generic_visit(node)
        return node

    def visit_Attribute(self, node):
        if isinstance(node.value, ast.Name) and isinstance(node.ctx, ast.Load):
            t = self.lookup(node.value.id)
            if t is not None and t[0] == 'array' and t[3] in ('mview', 'mview_c') and node.attr not in MVIEW_ATTRS:
                return ast.copy_location(_call('_cy_mview_attr', _const(node.value.id), _const(node.attr)), node)
            if t is not None and t[0] == 'array' and t[3] in ('ptr', 'carray'):
                raise self.bad('attribute %s of the C pointer / array %s' % (node.attr, node.value.id), node)
        self.generic_visit(node)
        return node

    def visit_Compare(self, node):
        if len(node.ops) == 1 and isinstance(node.ops[0], (ast.Eq, ast.NotEq)):
            a, b = node.left, node.comparators[0]
            for x, y in ((a, b), (b, a)):
                if isinstance(x, ast.Constant) and x.value is None and self.typeof(y) in ('array', 'funcptr', None):
                    node.ops = [ast.Is() if isinstance(node.ops[0], ast.Eq) else ast.IsNot()]
        self.generic_visit(node)
        return node

    # ----------------------------------------------------------------------------------------- assignments
    def coerce(self, target_type, value, vt, orig):
        """value (transformed) of C type vt assigned to a C variable of type target_type"""
        if target_type[0] == 'int':
            if vt == 'int':
                return value
            if vt == 'double':
                return _call('_cy_trunc', value)
            if vt == 'object':
                return _call('_cy_index', value)
            return _call('_cy_coerce_int', value)
        if target_type[0] == 'double':
            if isinstance(value, ast.Constant) and isinstance(value.value, (int, float)) and not isinstance(value.value, bool):
                return ast.copy_location(_const(float(value.value)), value)
            if vt == 'double' and not isinstance(orig, ast.Subscript):
                return value
            return _call('_cy_float', value)
        return value

    def visit_Assign(self, node):
        vt = self.typeof(node.value)
        value = self.visit(node.value)
        targets = [self.visit(t) for t in node.targets]
        names = [t for t in node.targets if isinstance(t, ast.Name)]
        if len(node.targets) == 1 and names:
            t = self.lookup(names[0].id)
            if t is not None and self.env is not None and names[0].id not in self.env and names[0].id in self.genv:
                t = None                      # without `global` this would be a new local; leave it alone
            if t is not None:
                value = self.coerce(t, value, vt, node.value)
        elif len(node.targets) > 1:
            for nm in names:
                t = self.lookup(nm.id)
                if t is not None and t[0] in NUM and t[0] != vt and not (t[0] == 'double' and vt == 'int'):
                    raise self.bad('chained assignment with C conversions is not modelled', node)
        node.targets, node.value = targets, value
        ast.fix_missing_locations(node)
        return node

    def visit_AugAssign(self, node):
        tgt = node.target
        tt = self.typeof(ast.Name(id=tgt.id, ctx=ast.Load())) if isinstance(tgt, ast.Name) else None
        if isinstance(tgt, ast.Subscript):
            load = ast.Subscript(value=tgt.value, slice=tgt.slice, ctx=ast.Load())
            ast.copy_location(load, tgt)
            tt = self.typeof(load)
        elif isinstance(tgt, ast.Attribute):
            tt = 'object'
        rt = self.typeof(node.value)
        decl = self.lookup(tgt.id) if isinstance(tgt, ast.Name) else None
        special = isinstance(node.op, (ast.Div, ast.FloorDiv, ast.Mod, ast.Pow))
        narrowing = decl is not None and decl[0] == 'int' and rt != 'int'
        if tt == 'array' and isinstance(tgt, ast.Name) and decl is not None and decl[3] == 'ptr':
            if isinstance(node.op, ast.Add) and rt == 'int':
                r = ast.Assign(targets=[ast.Name(id=tgt.id, ctx=ast.Store())],
                               value=_call('_cy_ptr_add', ast.Name(id=tgt.id, ctx=ast.Load()), self.visit(node.value)))
                return ast.fix_missing_locations(ast.copy_location(r, node))
            raise self.bad('arithmetic on a pointer is not modelled', node)
        if tt in ('array', 'funcptr') and not isinstance(tgt, ast.Subscript):
            raise self.bad('augmented assignment to a pointer / memoryview', node)
        if not special and not narrowing:
            if tt is None and isinstance(tgt, ast.Name):
                raise self.bad('augmented assignment to a variable of unknown C type', node)
            node.value = self.visit(node.value)
            node.target = self.visit(node.target)
            return node
        # x op= y  ->  x = x op y   with the C meaning of op
        if isinstance(tgt, ast.Name):
            load = ast.Name(id=tgt.id, ctx=ast.Load())
            store = ast.Name(id=tgt.id, ctx=ast.Store())
            tload = load
        elif isinstance(tgt, ast.Subscript):
            base, sl = self.visit(tgt.value), self.visit(tgt.slice)
            tload = ast.Subscript(value=base, slice=sl, ctx=ast.Load())
            store = ast.Subscript(value=base, slice=sl, ctx=ast.Store())
        else:
            if special and tt == 'object':
                node.value = self.visit(node.value)
                node.target = self.visit(node.target)
                return node
            raise self.bad('augmented assignment target is not modelled', node)
        right = self.visit(node.value)
        r = self.arith(node.op, tload, right, tt, rt, node) if special else None
        if r is None and decl is None:
            out = ast.AugAssign(target=store, op=node.op, value=right)          # Python meaning, unchanged
            return ast.fix_missing_locations(ast.copy_location(out, node))
        if r is None:
            r = ast.BinOp(left=tload, op=node.op, right=right)
        if decl is not None:
            restype = self.typeof(ast.copy_location(ast.BinOp(left=ast.copy_location(ast.Name(id=tgt.id, ctx=ast.Load()), node),
                                                              op=node.op, right=node.value), node))
            r = self.coerce(decl, r, restype, None)
        out = ast.Assign(targets=[store], value=r)
        return ast.fix_missing_locations(ast.copy_location(out, node))

    def visit_Return(self, node):
        if node.value is None:
            return node
        vt = self.typeof(node.value)
        value = self.visit(node.value)
        if self.fn is not None and self.fn['kind'] != 'def' and self.fn['ret'][0] in NUM:
            value = self.coerce(self.fn['ret'], value, vt, node.value)
        node.value = value
        ast.fix_missing_locations(node)
        return node

    def visit_For(self, node):
        if isinstance(node.target, ast.Name):
            t = self.lookup(node.target.id)
            if t is not None and t[0] in ('array', 'funcptr', 'unsup'):
                raise self.bad('loop variable %s is a pointer / array' % node.target.id, node)
        self.generic_visit(node)
        return node


# ============================================================================================== public API
_CACHE = {}


def clear_cache():
    _CACHE.clear()


def _load_module(path, externs, module, repo):
    path = os.path.abspath(path)
    if _stat(path) is None:
        raise Unsupported('cannot read the file', path, None)
    key = None
    if not externs:
        key = (os.path.realpath(path), module, repo)
        hit = _CACHE.get(key)
        if hit is not None and all(_stat(f) == st for f, st in hit[0]):
            return hit[1]
    m = _Module(path, repo, externs, module, lambda p, e, mod: _load_module(p, e, mod, repo))
    m.run()
    stamp = [(f, _stat(f)) for f in m.files()]
    if key is not None:
        _CACHE[key] = (stamp, m)
    return m


def load(path, repo=None, externs=None, module=None):
    """Execute the Cython source `path` and return its namespace (dict).

    repo    : root of the source tree (the directory that contains the top-level package); cimports of package modules are
              resolved below it.  Default: the `COMPMECH_REPO` environment variable or /repo.
    externs : {name: python callable / value} for external C functions (`cdef extern from "x.h"` other than math.h) and for
              cimported names that must not be read from source.
    module  : dotted module name of the file when it does not lie inside the package tree (a scratch copy): used for relative
              cimports and as a fall-back directory for include files.
    ns['__cyexec__'] holds the generated Python source, the origin table and the C-level signatures."""
    if repo is None:
        repo = os.environ.get('COMPMECH_REPO', '/repo')
    return _load_module(path, externs, module, repo).ns
