"""Python mirror of lean/CompmechVerif/Spec/Kinematics.lean (operator tables) and Core/OpSpec.lean
(hessian), used for the model-arm failing-input search and for the whole-matrix oracle.
A term is (coef, dx, dy); ops[field][component] = list of terms.
"""


def plate_ops(P):
    a, b = P['a'], P['b']
    return {'u': {0: [(2 / a, 1, 0)], 2: [(2 / b, 0, 1)]},
            'v': {1: [(2 / b, 0, 1)], 2: [(2 / a, 1, 0)]},
            'w': {3: [(-4 / (a * a), 2, 0)], 4: [(-4 / (b * b), 0, 2)], 5: [(-8 / (a * b), 1, 1)]}}


def cpanel_ops(P):
    o = plate_ops(P)
    o['w'][1] = [(1 / P['r'], 0, 0)]
    return o


def kpanel_ops(P):
    a, b, r, s, c = P['a'], P['b'], P['r'], P['sina'], P['cosa']
    o = plate_ops(P)
    o['u'][1] = [(s / r, 0, 0)]
    o['v'][2] = [(2 / a, 1, 0), (-(s / r), 0, 0)]
    o['w'][1] = [(c / r, 0, 0)]
    o['w'][4] = [(-4 / (b * b), 0, 2), (-(s / r * (2 / a)), 1, 0)]
    o['w'][5] = [(-8 / (a * b), 1, 1), (s / r * (2 / b), 0, 1)]
    return o


def grad_ops(P):
    return {'u': {}, 'v': {}, 'w': {0: [(2 / P['a'], 1, 0)], 1: [(2 / P['b'], 0, 1)]}}


def hessian(P, ops, W, alpha, beta, J):
    """J(dir, dA, fldA, dB, fldB) -> number"""
    n = len(W)
    tot = 0
    for p in range(n):
        for q in range(n):
            if W[p][q] == 0:
                continue
            acc = 0
            for (cs, sx, sy) in ops[alpha].get(p, []):
                for (ct, tx, ty) in ops[beta].get(q, []):
                    acc += cs * ct * J('x', sx, alpha, tx, beta) * J('y', sy, alpha, ty, beta)
            tot += W[p][q] * acc
    return P['a'] * P['b'] / 4 * tot
