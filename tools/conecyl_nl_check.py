"""Run validation V of the non-linear shell translator for every translated model and print the maximum relative
differences between the interpreted IR and the compiled module (see tools/conecyl_nl_v.py)."""
import sys
import time

from tools.translate import gen_conecyl_nl as G
from tools import conecyl_nl_v as V


def main(argv):
    names = argv or (list(G.MODELS) + list(G.IR_ONLY_MODELS))
    ncases = 6
    bad = 0
    for nm in names:
        t0 = time.time()
        M = G.translate_ir(nm)
        res = V.validate(nm, ncases=ncases, seed=17, M=M)
        worst = max(res[k] for k in ('k0L', 'kLL', 'kG', 'fint'))
        tie = max(res[k] for k in ('tie_k0L', 'tie_kLL', 'tie_kG'))
        ok = worst <= 1e-9
        bad += not ok
        print('%-18s %s  k0L %.1e  kLL %.1e  kG %.1e  fint %.1e | inputs from cffint instead of commons: k0L %.1e  kLL %.1e  kG %.1e %s  (%d cases, %d entries, %.1f s)' % (
            nm, 'agree ' if ok else 'DIFFER', res['k0L'], res['kLL'], res['kG'], res['fint'], res['tie_k0L'], res['tie_kLL'], res['tie_kG'],
            'consistent' if tie <= 1e-9 else 'SOURCE-INCONSISTENT', ncases, res['entries'], time.time() - t0))
    return 1 if bad else 0


if __name__ == '__main__':
    sys.exit(main(sys.argv[1:]))
